// instantiation TU for C04: every overload family of rkcommon/math/vec.h
// shapes 2, 3, padded 3 (vec_t<T,3,true>), 4; element types float (all families), int (%, divRoundUp,
// integer paths) and the mixed pairs float x int, int x double, uint8_t x uint8_t (promotion to int).
// Every function below only ODR-uses overloads; cxx2coq translates the instantiated bodies.
#include <functional>
#include <cstdint>
#include "rkcommon/math/vec.h"
using namespace rkcommon;
using namespace rkcommon::math;

typedef vec_t<uint8_t, 3, true> vec3uca;
typedef vec_t<double, 3, true> vec3da;

template <typename T>
void use(const T &);

// ---------------------------------------------------------------- unary operators and functors
#define USE_UNARY_ARITH(V) \
  void use_unary_arith_##V(const V &a) { use(-a); use(+a); use(abs(a)); }
#define USE_UNARY_FLOAT(V) \
  void use_unary_float_##V(const V &a) { use(rcp(a)); use(rcp_safe(a)); use(sin(a)); use(cos(a)); }
USE_UNARY_ARITH(vec2f) USE_UNARY_ARITH(vec3f) USE_UNARY_ARITH(vec3fa) USE_UNARY_ARITH(vec4f)
USE_UNARY_ARITH(vec2i) USE_UNARY_ARITH(vec3i) USE_UNARY_ARITH(vec3ia) USE_UNARY_ARITH(vec4i)
USE_UNARY_FLOAT(vec2f) USE_UNARY_FLOAT(vec3f) USE_UNARY_FLOAT(vec3fa) USE_UNARY_FLOAT(vec4f)

// ---------------------------------------------------------------- binary operators, same element type
#define USE_BIN4(A, B, S) \
  void use_bin4_##A##_##B(const A &a, const B &b, const S &s) \
  { use(a + b); use(a - b); use(a * b); use(a / b); use(a + s); use(a - s); use(a * s); use(a / s); \
    use(s + b); use(s - b); use(s * b); use(s / b); }
#define USE_REM(A, B, S) \
  void use_rem_##A##_##B(const A &a, const B &b, const S &s) { use(a % b); use(a % s); use(s % b); }
USE_BIN4(vec2f, vec2f, float) USE_BIN4(vec3f, vec3f, float) USE_BIN4(vec3fa, vec3fa, float)
USE_BIN4(vec3f, vec3fa, float) USE_BIN4(vec3fa, vec3f, float) USE_BIN4(vec4f, vec4f, float)
USE_BIN4(vec2i, vec2i, int) USE_BIN4(vec3i, vec3i, int) USE_BIN4(vec3ia, vec3ia, int)
USE_BIN4(vec3i, vec3ia, int) USE_BIN4(vec3ia, vec3i, int) USE_BIN4(vec4i, vec4i, int)
USE_REM(vec2i, vec2i, int) USE_REM(vec3i, vec3i, int) USE_REM(vec3ia, vec3ia, int)
USE_REM(vec3i, vec3ia, int) USE_REM(vec3ia, vec3i, int) USE_REM(vec4i, vec4i, int)

// ---------------------------------------------------------------- binary operators, mixed element types
#define USE_MIX4(A, B, SA, SB) \
  void use_mix4_##A##_##B(const A &a, const B &b, const SA &sa, const SB &sb) \
  { use(a + b); use(a - b); use(a * b); use(a / b); use(a + sb); use(a - sb); use(a * sb); use(a / sb); \
    use(sa + b); use(sa - b); use(sa * b); use(sa / b); }
#define USE_MIXREM(A, B, SA, SB) \
  void use_mixrem_##A##_##B(const A &a, const B &b, const SA &sa, const SB &sb) { use(a % b); use(a % sb); use(sa % b); }
USE_MIX4(vec2f, vec2i, float, int) USE_MIX4(vec3f, vec3i, float, int) USE_MIX4(vec3fa, vec3ia, float, int) USE_MIX4(vec4f, vec4i, float, int)
USE_MIX4(vec2i, vec2d, int, double) USE_MIX4(vec3i, vec3d, int, double) USE_MIX4(vec3ia, vec3da, int, double) USE_MIX4(vec4i, vec4d, int, double)
USE_MIXREM(vec2i, vec2uc, int, uint8_t) USE_MIXREM(vec3i, vec3uc, int, uint8_t) USE_MIXREM(vec4i, vec4uc, int, uint8_t)
// uint8_t x uint8_t: same element type, arithmetic carried out in int and converted back
USE_BIN4(vec2uc, vec2uc, uint8_t) USE_BIN4(vec3uc, vec3uc, uint8_t) USE_BIN4(vec3uca, vec3uca, uint8_t) USE_BIN4(vec4uc, vec4uc, uint8_t)
USE_REM(vec2uc, vec2uc, uint8_t) USE_REM(vec3uc, vec3uc, uint8_t) USE_REM(vec4uc, vec4uc, uint8_t)

// ---------------------------------------------------------------- compound assignment
#define USE_ASSIGN4(A, B, S) \
  void use_assign4_##A##_##B(A &a, const B &b, const S &s) \
  { a += b; a -= b; a *= b; a /= b; a += s; a -= s; a *= s; a /= s; }
#define USE_ASSIGNREM(A, B, S) \
  void use_assignrem_##A##_##B(A &a, const B &b, const S &s) { a %= b; a %= s; }
USE_ASSIGN4(vec2f, vec2f, float) USE_ASSIGN4(vec3f, vec3f, float) USE_ASSIGN4(vec3fa, vec3fa, float)
USE_ASSIGN4(vec3f, vec3fa, float) USE_ASSIGN4(vec3fa, vec3f, float) USE_ASSIGN4(vec4f, vec4f, float)
USE_ASSIGN4(vec2i, vec2i, int) USE_ASSIGN4(vec3i, vec3i, int) USE_ASSIGN4(vec3ia, vec3ia, int) USE_ASSIGN4(vec4i, vec4i, int)
USE_ASSIGNREM(vec2i, vec2i, int) USE_ASSIGNREM(vec3i, vec3i, int) USE_ASSIGNREM(vec3ia, vec3ia, int) USE_ASSIGNREM(vec4i, vec4i, int)
// mixed: float op= int, int op= double (converted back to int), uint8_t op= uint8_t
USE_ASSIGN4(vec2f, vec2i, int) USE_ASSIGN4(vec3f, vec3i, int) USE_ASSIGN4(vec3fa, vec3ia, int) USE_ASSIGN4(vec4f, vec4i, int)
USE_ASSIGN4(vec2i, vec2d, double) USE_ASSIGN4(vec3i, vec3d, double) USE_ASSIGN4(vec4i, vec4d, double)
USE_ASSIGN4(vec2uc, vec2uc, uint8_t) USE_ASSIGN4(vec3uc, vec3uc, uint8_t) USE_ASSIGN4(vec4uc, vec4uc, uint8_t)

// ---------------------------------------------------------------- madd, comparisons, anyLessThan
void use_madd(const vec3f &a, const vec3f &b, const vec3f &c, const vec3fa &d, const vec3fa &e, const vec3fa &f)
{ use(madd(a, b, c)); use(madd(d, e, f)); }
#define USE_CMP(A, B) \
  void use_cmp_##A##_##B(const A &a, const B &b) { use(a == b); use(a != b); use(anyLessThan(a, b)); }
USE_CMP(vec2f, vec2f) USE_CMP(vec3f, vec3f) USE_CMP(vec3fa, vec3fa) USE_CMP(vec3f, vec3fa) USE_CMP(vec3fa, vec3f) USE_CMP(vec4f, vec4f)
USE_CMP(vec2i, vec2i) USE_CMP(vec3i, vec3i) USE_CMP(vec3ia, vec3ia) USE_CMP(vec3i, vec3ia) USE_CMP(vec3ia, vec3i) USE_CMP(vec4i, vec4i)

// ---------------------------------------------------------------- dot, length, cross, normalize, interpolate
#define USE_DOT(A, B) void use_dot_##A##_##B(const A &a, const B &b) { use(dot(a, b)); }
USE_DOT(vec2f, vec2f) USE_DOT(vec3f, vec3f) USE_DOT(vec3fa, vec3fa) USE_DOT(vec3f, vec3fa) USE_DOT(vec3fa, vec3f) USE_DOT(vec4f, vec4f)
USE_DOT(vec2i, vec2i) USE_DOT(vec3i, vec3i) USE_DOT(vec3ia, vec3ia) USE_DOT(vec3i, vec3ia) USE_DOT(vec3ia, vec3i) USE_DOT(vec4i, vec4i)
#define USE_CROSS(A, B) void use_cross_##A##_##B(const A &a, const B &b) { use(cross(a, b)); }
USE_CROSS(vec3f, vec3f) USE_CROSS(vec3fa, vec3fa) USE_CROSS(vec3f, vec3fa) USE_CROSS(vec3fa, vec3f)
USE_CROSS(vec3i, vec3i) USE_CROSS(vec3ia, vec3ia)
#define USE_NORM(V) \
  void use_norm_##V(const V &a, const V &b, const V &c, const vec3f &f) \
  { use(length(a)); use(normalize(a)); use(safe_normalize(a)); use(interpolate_uv(f, a, b, c)); }
USE_NORM(vec2f) USE_NORM(vec3f) USE_NORM(vec3fa) USE_NORM(vec4f)

// ---------------------------------------------------------------- min max divRoundUp, reductions
#define USE_MINMAX(V) void use_minmax_##V(const V &a, const V &b) { use(min(a, b)); use(max(a, b)); }
#define USE_DRU(V) void use_dru_##V(const V &a, const V &b) { use(divRoundUp(a, b)); }
#define USE_REDUCE(V) \
  void use_reduce_##V(const V &a) \
  { use(reduce_add(a)); use(reduce_mul(a)); use(reduce_min(a)); use(reduce_max(a)); use(a.sum()); use(a.product()); use(a.long_product()); }
USE_MINMAX(vec2f) USE_MINMAX(vec3f) USE_MINMAX(vec3fa) USE_MINMAX(vec4f)
USE_MINMAX(vec2i) USE_MINMAX(vec3i) USE_MINMAX(vec3ia) USE_MINMAX(vec4i)
USE_DRU(vec2i) USE_DRU(vec3i) USE_DRU(vec3ia) USE_DRU(vec4i)
USE_REDUCE(vec2f) USE_REDUCE(vec3f) USE_REDUCE(vec3fa) USE_REDUCE(vec4f)
USE_REDUCE(vec2i) USE_REDUCE(vec3i) USE_REDUCE(vec3ia) USE_REDUCE(vec4i)
void use_argmax(const vec2f &a, const vec3f &b, const vec4f &c, const vec3i &d) { use(arg_max(a)); use(arg_max(b)); use(arg_max(c)); use(arg_max(d)); }

// ---------------------------------------------------------------- std::less
#define USE_LESS(V) void use_less_##V(const V &a, const V &b) { use(std::less<V>()(a, b)); }
USE_LESS(vec2f) USE_LESS(vec3f) USE_LESS(vec3fa) USE_LESS(vec4f)
USE_LESS(vec2i) USE_LESS(vec3i) USE_LESS(vec3ia) USE_LESS(vec4i)

// ---------------------------------------------------------------- constructors and conversions
void use_ctor_f(float s, float x, float y, float z, float w, int k, const vec2f &p, const vec2f &q, const vec3f &r, const vec3fa &ra,
                const vec2i &pi, const vec3i &ri, const vec3ia &ria, const vec4i &ui, const vec4f &u, const vec3d &rd)
{
  use(vec2f(s)); use(vec3f(s)); use(vec3fa(s)); use(vec4f(s));                                   // broadcast
  use(vec2f(k)); use(vec3f(k)); use(vec3fa(k)); use(vec4f(k));                                   // broadcast of another arithmetic type
  use(vec2f(x, y)); use(vec3f(x, y, z)); use(vec3fa(x, y, z)); use(vec4f(x, y, z, w));           // per component
  use(vec3f(p, z)); use(vec3fa(p, z)); use(vec4f(p, q)); use(vec4f(r, w)); use(vec4f(ra, w));    // from smaller shapes
  use(vec2f(pi)); use(vec3f(ri)); use(vec3f(ria)); use(vec3fa(ri)); use(vec3fa(ria)); use(vec4f(ui));  // element type conversion
  use(vec3f(ra)); use(vec3fa(r)); use(vec3f(rd));                                                // shape / alignment conversion
  use(p.operator vec2i()); use(r.operator vec3i()); use(ra.operator vec3ia()); use(u.operator vec4i());        // explicit operator vec_t<OT,N>
  vec3f viaconv = ra;                                                                             // operator vec_t<T,3>() of the padded shape
  use(viaconv);
}
void use_ctor_i(int s, int x, int y, int z, int w, float k, const vec2i &p, const vec2i &q, const vec3i &r, const vec3ia &ra,
                const vec2f &pf, const vec3f &rf, const vec3fa &rfa, const vec4f &uf, const vec4i &u, const vec3uc &ruc)
{
  use(vec2i(s)); use(vec3i(s)); use(vec3ia(s)); use(vec4i(s));
  use(vec2i(k)); use(vec3i(k)); use(vec3ia(k)); use(vec4i(k));
  use(vec2i(x, y)); use(vec3i(x, y, z)); use(vec3ia(x, y, z)); use(vec4i(x, y, z, w));
  use(vec3i(p, z)); use(vec3ia(p, z)); use(vec4i(p, q)); use(vec4i(r, w)); use(vec4i(ra, w));
  use(vec2i(pf)); use(vec3i(rf)); use(vec3i(rfa)); use(vec3ia(rf)); use(vec3ia(rfa)); use(vec4i(uf));
  use(vec3i(ra)); use(vec3ia(r)); use(vec3i(ruc));
  use(p.operator vec2f()); use(r.operator vec3f()); use(ra.operator vec3fa()); use(u.operator vec4f());
  vec3i viaconv = ra;
  use(viaconv);
}

// ================================================================ inventory closure (round 8): double across the families, 8/16-bit element
// types for the functor-expanded families and mixed scalar operands, lerp / clamp (rkmath.h templates) on vectors, madd on double
typedef vec_t<int16_t, 2> vec2s_; typedef vec_t<int16_t, 3> vec3s_; typedef vec_t<int16_t, 3, true> vec3sa; typedef vec_t<int16_t, 4> vec4s_;
USE_UNARY_ARITH(vec2d) USE_UNARY_ARITH(vec3d) USE_UNARY_ARITH(vec3da) USE_UNARY_ARITH(vec4d)
USE_UNARY_ARITH(vec2s_) USE_UNARY_ARITH(vec3s_) USE_UNARY_ARITH(vec3sa) USE_UNARY_ARITH(vec4s_)
USE_UNARY_ARITH(vec2uc) USE_UNARY_ARITH(vec3uc) USE_UNARY_ARITH(vec3uca) USE_UNARY_ARITH(vec4uc)
USE_UNARY_FLOAT(vec2d) USE_UNARY_FLOAT(vec3d) USE_UNARY_FLOAT(vec3da) USE_UNARY_FLOAT(vec4d)
USE_BIN4(vec2d, vec2d, double) USE_BIN4(vec3d, vec3d, double) USE_BIN4(vec3da, vec3da, double) USE_BIN4(vec3d, vec3da, double)
USE_BIN4(vec3da, vec3d, double) USE_BIN4(vec4d, vec4d, double)
USE_BIN4(vec2s_, vec2s_, int16_t) USE_BIN4(vec3s_, vec3s_, int16_t) USE_BIN4(vec3sa, vec3sa, int16_t) USE_BIN4(vec4s_, vec4s_, int16_t)
USE_REM(vec2s_, vec2s_, int16_t) USE_REM(vec3s_, vec3s_, int16_t) USE_REM(vec4s_, vec4s_, int16_t)
USE_MIX4(vec2uc, vec2i, uint8_t, int) USE_MIX4(vec3uc, vec3i, uint8_t, int) USE_MIX4(vec3uca, vec3ia, uint8_t, int) USE_MIX4(vec4uc, vec4i, uint8_t, int)
USE_MIX4(vec2s_, vec2i, int16_t, int) USE_MIX4(vec3s_, vec3i, int16_t, int) USE_MIX4(vec4s_, vec4i, int16_t, int)
USE_ASSIGN4(vec2d, vec2d, double) USE_ASSIGN4(vec3d, vec3d, double) USE_ASSIGN4(vec3da, vec3da, double) USE_ASSIGN4(vec4d, vec4d, double)
void use_madd_d(const vec3d &a, const vec3d &b, const vec3d &c, const vec3da &d, const vec3da &e, const vec3da &f) { use(madd(a, b, c)); use(madd(d, e, f)); }
USE_CMP(vec2d, vec2d) USE_CMP(vec3d, vec3d) USE_CMP(vec3da, vec3da) USE_CMP(vec3d, vec3da) USE_CMP(vec3da, vec3d) USE_CMP(vec4d, vec4d)
USE_DOT(vec2d, vec2d) USE_DOT(vec3d, vec3d) USE_DOT(vec3da, vec3da) USE_DOT(vec3d, vec3da) USE_DOT(vec3da, vec3d) USE_DOT(vec4d, vec4d)
USE_CROSS(vec3d, vec3d) USE_CROSS(vec3da, vec3da)
#define USE_NORM_D(V) \
  void use_normd_##V(const V &a, const V &b, const V &c, const vec3d &f) \
  { use(length(a)); use(normalize(a)); use(safe_normalize(a)); use(interpolate_uv(f, a, b, c)); }
USE_NORM_D(vec2d) USE_NORM_D(vec3d) USE_NORM_D(vec3da) USE_NORM_D(vec4d)
USE_MINMAX(vec2d) USE_MINMAX(vec3d) USE_MINMAX(vec3da) USE_MINMAX(vec4d)
USE_MINMAX(vec2s_) USE_MINMAX(vec3s_) USE_MINMAX(vec3sa) USE_MINMAX(vec4s_) USE_MINMAX(vec2uc) USE_MINMAX(vec3uc) USE_MINMAX(vec3uca) USE_MINMAX(vec4uc)
USE_DRU(vec2s_) USE_DRU(vec3s_) USE_DRU(vec3sa) USE_DRU(vec4s_) USE_DRU(vec2uc) USE_DRU(vec3uc) USE_DRU(vec3uca) USE_DRU(vec4uc)
USE_REDUCE(vec2d) USE_REDUCE(vec3d) USE_REDUCE(vec3da) USE_REDUCE(vec4d)
USE_LESS(vec2d) USE_LESS(vec3d) USE_LESS(vec3da) USE_LESS(vec4d)
#define USE_LERP_CLAMP(V) \
  void use_lerp_clamp_##V(float f, const V &a, const V &b, const V &c) { use(lerp(f, a, b)); use(clamp(a, b, c)); }
USE_LERP_CLAMP(vec2f) USE_LERP_CLAMP(vec3f) USE_LERP_CLAMP(vec3fa) USE_LERP_CLAMP(vec4f)
USE_LERP_CLAMP(vec2d) USE_LERP_CLAMP(vec3d) USE_LERP_CLAMP(vec3da) USE_LERP_CLAMP(vec4d)
#define USE_CLAMP(V) void use_clamp_##V(const V &a, const V &b, const V &c) { use(clamp(a, b, c)); }
USE_CLAMP(vec2i) USE_CLAMP(vec3i) USE_CLAMP(vec3ia) USE_CLAMP(vec4i)
