// instantiation TU for C04 (constants): every conversion operator of every tag constant of rkcommon/math/constants.h
// (zero one neg_inf pos_inf/inf nan ulp pi one_over_pi two_pi half_pi one_over_two_pi four_pi quarter_pi one_over_four_pi)
// and their uses as T(c) and vec_t<T,N>(T(c)).  The conversion operators are inline members and are translated as they stand
// (<Tag>Ty_conv_<type>__); the functions of namespace rkcommon::c04 below are translated too (filter 'rkcommon') and give the
// namespace-scope constant one_over_255 and the broadcast uses a name.
#include "rkcommon/math/vec.h"

namespace rkcommon {
  namespace c04 {
    using namespace rkcommon::math;
    inline float get_one_over_255() { return one_over_255; }
#define BROADCAST(T, S, c)                                        \
  inline vec_t<T, 2> b2##S##_##c() { return vec_t<T, 2>(T(c)); }   \
  inline vec_t<T, 3> b3##S##_##c() { return vec_t<T, 3>(T(c)); }   \
  inline vec_t<T, 3, true> b3a##S##_##c() { return vec_t<T, 3, true>(T(c)); } \
  inline vec_t<T, 4> b4##S##_##c() { return vec_t<T, 4>(T(c)); }
    BROADCAST(float, f, zero) BROADCAST(float, f, one) BROADCAST(float, f, pos_inf) BROADCAST(float, f, neg_inf) BROADCAST(float, f, ulp)
    BROADCAST(int, i, zero) BROADCAST(int, i, one) BROADCAST(int, i, pos_inf) BROADCAST(int, i, neg_inf)
    BROADCAST(uint8_t, uc, zero) BROADCAST(uint8_t, uc, one) BROADCAST(uint8_t, uc, pos_inf) BROADCAST(uint8_t, uc, neg_inf)
    BROADCAST(double, d, pi)
  }  // namespace c04
}  // namespace rkcommon

// every T(c): forces nothing new (the operators are inline members) but keeps the TU honest about what is callable
#define K(c) rkcommon::math::c
#define ALLTYPES(c) \
  void use_##c(double &d, float &f, long long &ll, unsigned long long &ull, long &l, unsigned long &ul, int &i, unsigned &u, short &s, \
               unsigned short &us, char &ch, unsigned char &uc) \
  { d = double(K(c)); f = float(K(c)); ll = (long long)(K(c)); ull = (unsigned long long)(K(c)); l = long(K(c)); ul = (unsigned long)(K(c)); \
    i = int(K(c)); u = unsigned(K(c)); s = short(K(c)); us = (unsigned short)(K(c)); ch = char(K(c)); uc = (unsigned char)(K(c)); }
#define FLTYPES(c) void use_##c(double &d, float &f) { d = double(K(c)); f = float(K(c)); }
ALLTYPES(zero) ALLTYPES(one) ALLTYPES(neg_inf) ALLTYPES(pos_inf) ALLTYPES(inf)
FLTYPES(nan) FLTYPES(ulp) FLTYPES(pi) FLTYPES(one_over_pi) FLTYPES(two_pi) FLTYPES(half_pi) FLTYPES(one_over_two_pi) FLTYPES(four_pi)
FLTYPES(quarter_pi) FLTYPES(one_over_four_pi)
