// instantiation TU for C07: scalar math kernels of rkmath.h, the 8-bit packing of vec.h and the
// random distributions of utility/random.h.  Every function of interest is ODR-used once so that
// clang instantiates its body; cxx2coq translates only the instantiated bodies.
#include "rkcommon/math/rkmath.h"
#include "rkcommon/math/vec.h"
#include "rkcommon/utility/random.h"
using namespace rkcommon;
using namespace rkcommon::math;

float use_scalar_f(float x, float a, float b, float c)
{
  return sign(x) + rcp(x) + rcp_safe(x) + rsqrt(x) + clamp(x, a, b) + deg2rad(x) + madd(a, b, c) + lerp(x, a, b) +
         linear_to_srgb(x);
}

double use_scalar_d(double x, double a, double b, double c, float f)
{
  return rcp(x) + rcp_safe(x) + rsqrt(x) + clamp(x, a, b) + deg2rad(x) + madd(a, b, c) + lerp(f, a, b);
}

unsigned long use_scalar_i(int a, int b, int c, unsigned ua, unsigned ub, size_t sa, size_t sb, int64_t la, int64_t lb)
{
  return clamp(a, b, c) + divRoundUp(a, b) + divRoundUp(ua, ub) + divRoundUp(sa, sb) + divRoundUp(la, lb);
}

// the integer-generic templates at the narrow widths: the operands are promoted to int, ONE narrowing at the return
int use_scalar_narrow(int8_t a8, int8_t b8, uint8_t ua8, uint8_t ub8, int16_t a16, int16_t b16, uint16_t ua16, uint16_t ub16)
{
  return divRoundUp(a8, b8) + divRoundUp(ua8, ub8) + divRoundUp(a16, b16) + divRoundUp(ua16, ub16) + clamp(ua8, ub8, ua8) +
         clamp(a16, b16, a16);
}

uint32_t use_pack(const vec4f &v, float f)
{
  vec4f s = linear_to_srgba(v);
  return cvt_uint32(f) + cvt_uint32(v) + linear_to_srgba8(v) + (uint32_t)s.x;
}

float use_random(int seed, int seq, float lo, float hi, unsigned i)
{
  utility::pcg32_biased_float_distribution d(seed, seq, lo, hi);
  pcg32 g;
  g.seed(seed, seq);
  utility::uniform_real_distribution<float> u(lo, hi);
  vec3f c = utility::makeRandomColor(i);
  return d() + u(g) + c.x + (float)g();
}
