// instantiation TU for C05: ranges and boxes as closed axis-aligned sets
#include "rkcommon/math/box.h"
#include "rkcommon/math/AffineSpace.h"
using namespace rkcommon;
using namespace rkcommon::math;

// every member of the range/box instantiations of interest
template struct rkcommon::math::range_t<int>;
template struct rkcommon::math::range_t<float>;
template struct rkcommon::math::range_t<vec2i>;
template struct rkcommon::math::range_t<vec3i>;
template struct rkcommon::math::range_t<vec4i>;
template struct rkcommon::math::range_t<vec2f>;
template struct rkcommon::math::range_t<vec3f>;
template struct rkcommon::math::range_t<vec3fa>;
template struct rkcommon::math::range_t<vec4f>;

#define USE_RANGE_OPS(B, P)                                           \
  bool use_ops_##B(const B &a, const B &b, const P &p, B &o1, B &o2)  \
  {                                                                   \
    o1 = a * p;                                                       \
    o2 = p * a;                                                       \
    o1 = a + p;                                                       \
    o2 = p + a;                                                       \
    return a == b || a != b;                                          \
  }
USE_RANGE_OPS(box1i, int)
USE_RANGE_OPS(box1f, float)
USE_RANGE_OPS(box2i, vec2i)
USE_RANGE_OPS(box3i, vec3i)
USE_RANGE_OPS(box4i, vec4i)
USE_RANGE_OPS(box2f, vec2f)
USE_RANGE_OPS(box3f, vec3f)
USE_RANGE_OPS(box4f, vec4f)
USE_RANGE_OPS(box3fa, vec3fa)

#define USE_BOX_FNS(B, P)                                   \
  bool use_fns_##B(const B &a, const B &b, B &o, P &c)      \
  {                                                         \
    o = intersectionOf(a, b);                               \
    c = center(a);                                          \
    return disjoint(a, b);                                  \
  }
USE_BOX_FNS(box2i, vec2i)
USE_BOX_FNS(box3i, vec3i)
USE_BOX_FNS(box4i, vec4i)
USE_BOX_FNS(box2f, vec2f)
USE_BOX_FNS(box3f, vec3f)
USE_BOX_FNS(box3fa, vec3fa)
USE_BOX_FNS(box4f, vec4f)

int use_area_i(const box2i &a, const box3i &b)
{
  return area(a) + area(b) + volume(b) + touchingOrOverlapping(a, a) + touchingOrOverlapping(b, b);
}
float use_area_f(const box2f &a, const box3f &b, const box3fa &c)
{
  return area(a) + area(b) + volume(b) + area(c) + volume(c) + touchingOrOverlapping(a, a) +
         touchingOrOverlapping(b, b) + touchingOrOverlapping(c, c);
}

box3f use_xfm(const affine3f &m, const box3f &b)
{
  return xfmBounds(m, b);
}
box3fa use_xfm_a(const AffineSpaceT<LinearSpace3<vec3fa>> &m, const box3fa &b)
{
  return xfmBounds<float, true>(m, b);
}
vec3f use_xfmPoint(const affine3f &m, const vec3f &p)
{
  return xfmPoint(m, p);
}
range1f use_ray2(const vec2f &o, const vec2f &d, const box2f &b, const range1f &t)
{
  return intersectRayBox(o, d, b, t);
}
range1f use_ray3(const vec3f &o, const vec3f &d, const box3f &b, const range1f &t)
{
  return intersectRayBox(o, d, b, t);
}
range1f use_ray3d(const vec3f &o, const vec3f &d, const box3f &b)
{
  return intersectRayBox(o, d, b);
}

// converting constructor  explicit range_t(const range_t<other_t> &)  between the int and float instantiations of each dimension
range1f cvt_1f(const range1i &b) { return range1f(b); }
range1i cvt_1i(const range1f &b) { return range1i(b); }
box2f cvt_2f(const box2i &b) { return box2f(b); }
box2i cvt_2i(const box2f &b) { return box2i(b); }
box3f cvt_3f(const box3i &b) { return box3f(b); }
box3i cvt_3i(const box3f &b) { return box3i(b); }
box3fa cvt_3fa(const box3f &b) { return box3fa(b); }
box4f cvt_4f(const box4i &b) { return box4f(b); }
box4i cvt_4i(const box4f &b) { return box4i(b); }
vec3fa use_xfmPoint_a(const AffineSpaceT<LinearSpace3<vec3fa>> &m, const vec3fa &p)
{
  return xfmPoint(m, p);
}
