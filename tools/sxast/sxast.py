"""Small helper shared by props/C19/factgen.py and props/C20/factgen.py: dumps the clang JSON AST of a
translation unit (filtered by name) and turns statements / expressions into plain nested tuples
("S-expressions") with the implicit nodes stripped, so that extractors can pattern-match on them.

  ('op', 'operator++', obj, ('int','0'))     overloaded operator call (postfix ++ has the dummy int)
  ('mcall', 'load', obj, args...)            member call (default arguments dropped)
  ('call', 'nextValue', args...)             call of a named function
  ('mem', 'value', base)                     member access; base 'this' when implicit/explicit this
  ('ref', name, declkind)                    reference to a variable / parameter / template parameter
  ('un', op, 'post'|'pre', e)  ('bin', op, a, b)  ('cond', c, a, b)  ('idx', base, i)  ('addr', e) = ('un','&',..)
  ('int', 'v') ('bool', v) ('str', text) 'nullptr' 'this'
  statements: ('block', [..]) ('if', c, then, else|None) ('ret', e|None) ('decl', name, type, init|None)
              ('forrange', var, range, body) ('for', init, cond, inc, body) 'break' 'continue' ('expr', e)
  anything else: ('?', kind)
"""
import json
import os
import subprocess
import sys

sys.path.insert(0, os.path.join(os.path.dirname(os.path.dirname(os.path.abspath(__file__))), "cxx2coq"))
from astutil import load_docs, walk  # noqa: E402,F401

TRANSPARENT = {"ImplicitCastExpr", "ParenExpr", "ExprWithCleanups", "MaterializeTemporaryExpr", "CXXBindTemporaryExpr",
               "SubstNonTypeTemplateParmExpr", "ConstantExpr", "CXXFunctionalCastExpr", "CXXStaticCastExpr", "CStyleCastExpr",
               "CXXConstCastExpr", "CXXReinterpretCastExpr"}


def dump(repo, work, src_text, filt, name, std="c++11", extra=()):
    os.makedirs(work, exist_ok=True)
    src = os.path.join(work, name + ".cpp")
    with open(src, "w") as f:
        f.write(src_text)
    out = os.path.join(work, "ast_%s_%s.json" % (name, filt))
    cmd = ["clang++", "-std=" + std, "-I" + repo, "-I" + work, "-fsyntax-only", "-Xclang", "-ast-dump=json",
           "-Xclang", "-ast-dump-filter=" + filt] + list(extra) + [src]
    with open(out, "w") as f:
        p = subprocess.run(cmd, stdout=f, stderr=subprocess.PIPE, timeout=180, universal_newlines=True)
    if p.returncode != 0:
        raise RuntimeError("clang failed: " + p.stderr[-2000:])
    return load_docs(out)


def inner(n):
    return [c for c in (n.get("inner") or []) if isinstance(c, dict) and c]


def callee_name(n):
    while n.get("kind") in TRANSPARENT and inner(n):
        n = inner(n)[0]
    if n.get("kind") == "DeclRefExpr":
        return (n.get("referencedDecl") or {}).get("name")
    if n.get("kind") == "UnresolvedLookupExpr":
        return n.get("name")
    return None


def ex(n):
    k = n.get("kind")
    ch = inner(n)
    if k in TRANSPARENT and ch:
        return ex(ch[-1] if k.endswith("CastExpr") and k != "ImplicitCastExpr" else ch[0])
    if k == "CXXThisExpr":
        return "this"
    if k in ("CXXNullPtrLiteralExpr", "GNUNullExpr"):
        return "nullptr"
    if k == "IntegerLiteral":
        return ("int", n.get("value"))
    if k == "CXXBoolLiteralExpr":
        return ("bool", n.get("value"))
    if k == "StringLiteral":
        return ("str", json.loads(n.get("value")) if n.get("value", "").startswith('"') else n.get("value"))
    if k == "DeclRefExpr":
        r = n.get("referencedDecl") or {}
        return ("ref", r.get("name"), r.get("kind"))
    if k == "MemberExpr":
        return ("mem", n.get("name"), ex(ch[0]) if ch else "this")
    if k == "CXXDependentScopeMemberExpr":
        return ("mem", n.get("member"), ex(ch[0]) if ch else "this")
    if k == "UnaryOperator":
        return ("un", n.get("opcode"), "post" if n.get("isPostfix") else "pre", ex(ch[0]))
    if k in ("BinaryOperator", "CompoundAssignOperator"):
        return ("bin", n.get("opcode"), ex(ch[0]), ex(ch[1]))
    if k == "ConditionalOperator":
        return ("cond", ex(ch[0]), ex(ch[1]), ex(ch[2]))
    if k == "ArraySubscriptExpr":
        return ("idx", ex(ch[0]), ex(ch[1]))
    if k == "CXXOperatorCallExpr":
        return ("op", callee_name(ch[0])) + tuple(ex(c) for c in ch[1:] if c.get("kind") != "CXXDefaultArgExpr")
    if k == "CXXMemberCallExpr":
        cal = ch[0]
        while cal.get("kind") in TRANSPARENT and inner(cal):
            cal = inner(cal)[0]
        nm = cal.get("name") if cal.get("kind") == "MemberExpr" else cal.get("member")
        obj = ex(inner(cal)[0]) if inner(cal) else "this"
        return ("mcall", nm, obj) + tuple(ex(c) for c in ch[1:] if c.get("kind") != "CXXDefaultArgExpr")
    if k == "CallExpr":
        nm = callee_name(ch[0])
        if nm is None:
            return ("callx", ex(ch[0])) + tuple(ex(c) for c in ch[1:] if c.get("kind") != "CXXDefaultArgExpr")
        return ("call", nm) + tuple(ex(c) for c in ch[1:] if c.get("kind") != "CXXDefaultArgExpr")
    if k == "CXXConstructExpr":
        args = tuple(ex(c) for c in ch if c.get("kind") != "CXXDefaultArgExpr")
        return ("construct", n.get("type", {}).get("qualType")) + args
    if k == "CXXTemporaryObjectExpr":
        return ("construct", n.get("type", {}).get("qualType")) + tuple(ex(c) for c in ch if c.get("kind") != "CXXDefaultArgExpr")
    if k == "CXXDefaultInitExpr":
        return ("definit",)
    if k == "InitListExpr":
        return ("initlist",) + tuple(ex(c) for c in ch)
    if k == "UnaryExprOrTypeTraitExpr":
        return ("sizeof", n.get("argType", {}).get("qualType"))
    return ("?", k)


def st(n):
    k = n.get("kind")
    ch = [c for c in (n.get("inner") or []) if isinstance(c, dict)]     # keeps {} placeholders (absent for-parts)
    if k == "CompoundStmt":
        return ("block", [st(c) for c in ch if c])
    if k == "IfStmt":
        ch2 = [c for c in ch if c]
        return ("if", ex(ch2[0]), st(ch2[1]), st(ch2[2]) if len(ch2) > 2 else None)
    if k == "ReturnStmt":
        ch2 = [c for c in ch if c]
        return ("ret", ex(ch2[0]) if ch2 else None)
    if k == "DeclStmt":
        out = []
        for d in ch:
            if d.get("kind") == "VarDecl":
                ini = [c for c in inner(d) if not c.get("kind", "").endswith("Comment")]
                out.append(("decl", d.get("name"), d.get("type", {}).get("qualType"), ex(ini[0]) if ini else None))
        return out[0] if len(out) == 1 else ("decls", out)
    if k == "CXXForRangeStmt":
        # inner: [init?] range-decl, begin-decl, end-decl, cond, inc, loopvar decl, body
        var = rng = None
        for c in ch:
            if c.get("kind") == "DeclStmt":
                for d in inner(c):
                    if d.get("kind") == "VarDecl" and d.get("name") == "__range1" or (d.get("kind") == "VarDecl" and str(d.get("name", "")).startswith("__range")):
                        ini = inner(d)
                        rng = ex(ini[0]) if ini else None
                    elif d.get("kind") == "VarDecl" and not str(d.get("name", "")).startswith("__"):
                        var = (d.get("name"), d.get("type", {}).get("qualType"))
        return ("forrange", var, rng, st([c for c in ch if c][-1]))
    if k == "ForStmt":
        parts = ch + [{}] * (5 - len(ch))
        ini, _condvar, cond, inc, body = parts[0], parts[1], parts[2], parts[3], parts[4]
        return ("for", st(ini) if ini else None, ex(cond) if cond else None, ex(inc) if inc else None, st(body))
    if k == "WhileStmt":
        ch2 = [c for c in ch if c]
        return ("while", ex(ch2[0]), st(ch2[-1]))
    if k == "BreakStmt":
        return "break"
    if k == "ContinueStmt":
        return "continue"
    if k == "NullStmt":
        return ("block", [])
    if k.endswith("Expr") or k.endswith("Operator") or k.endswith("Literal") or k in TRANSPARENT:
        return ("expr", ex(n))
    return ("?", k)


def body_of(fn):
    for c in inner(fn):
        if c.get("kind") == "CompoundStmt":
            return st(c)
    return None


def ctor_inits(fn):
    """[(member name or None, init sexp)] of a constructor, in AST order"""
    out = []
    for c in inner(fn):
        if c.get("kind") == "CXXCtorInitializer":
            who = (c.get("anyInit") or {}).get("name")
            ini = inner(c)
            out.append((who, ex(ini[0]) if ini else None))
    return out


def pp(s, ind=0):
    pad = "  " * ind
    if isinstance(s, tuple) and s and s[0] == "block":
        return "\n".join(pp(x, ind) for x in s[1]) if s[1] else pad + "{}"
    if isinstance(s, tuple) and s and s[0] in ("if", "forrange", "for", "while"):
        head = [x for x in s[1:] if not (isinstance(x, tuple) and x and x[0] in ("block", "if", "expr", "ret", "forrange", "for")) and x is not None or isinstance(x, str)]
        lines = [pad + s[0] + " " + repr(tuple(head))]
        for x in s[1:]:
            if isinstance(x, tuple) and x and x[0] in ("block", "if", "expr", "ret", "forrange", "for", "decl"):
                lines.append(pp(x, ind + 1))
        return "\n".join(lines)
    return pad + repr(s)


# ------------------------------------------------------------------ inventory of declarations
def _sig(n):
    return (n.get("type") or {}).get("qualType", "")


def inventory(docs, classes=(), functions=None, namespace=None):
    """Every member of the named classes (methods, constructors, destructors, conversion operators, fields, static data members,
    friend declarations, implicit special members that the translation unit made clang declare) and every namespace-level
    function / function template whose name passes `functions` (a predicate; None = all), found in the filtered AST documents.
    Returns {key: info}; key = '<Class>::<name> <type>' / '<name> <type>' (+ ' [template]' / ' [implicit]' / ' [deleted]' marks)."""
    out = {}

    def add(key, **info):
        if key not in out:
            out[key] = info
        else:
            out[key]["count"] = out[key].get("count", 1) + 1
            if info.get("has_body"):
                out[key]["has_body"] = True

    def member(cls, c):
        k = c.get("kind")
        nm = c.get("name")
        marks = ""
        if c.get("isImplicit"):
            marks += " [implicit]"
        if c.get("explicitlyDeleted"):
            marks += " [deleted]"
        if c.get("explicitlyDefaulted"):
            marks += " [=%s]" % c.get("explicitlyDefaulted")
        if k in ("CXXMethodDecl", "CXXConstructorDecl", "CXXDestructorDecl", "CXXConversionDecl"):
            st = " static" if c.get("storageClass") == "static" else ""
            vi = " virtual" if c.get("virtual") else ""
            add("%s::%s %s%s%s%s" % (cls, nm, _sig(c), st, vi, marks), kind=k, has_body=body_of(c) is not None)
        elif k == "FieldDecl":
            add("field %s::%s %s" % (cls, nm, _sig(c)), kind=k)
        elif k == "VarDecl":
            add("static-field %s::%s %s" % (cls, nm, _sig(c)), kind=k)
        elif k == "FriendDecl":
            add("friend-of %s: %s" % (cls, (c.get("type") or {}).get("qualType") or (inner(c)[0].get("name") if inner(c) else "?")), kind=k)
        elif k == "FunctionTemplateDecl":
            for f in inner(c):
                if f.get("kind") in ("CXXMethodDecl", "CXXConstructorDecl"):
                    add("%s::%s %s [template]" % (cls, nm, _sig(f)), kind=k)
                    break
    for d in docs:
        k, nm = d.get("kind"), d.get("name")
        if k == "CXXRecordDecl" and nm in classes and d.get("completeDefinition"):
            bases = [(b.get("type") or {}).get("qualType") for b in (d.get("bases") or [])]
            add("class %s%s" % (nm, " : " + ", ".join(bases) if bases else ""), kind=k)
            for c in inner(d):
                if c.get("kind") == "CXXRecordDecl" and c.get("isImplicit"):
                    continue
                if c.get("kind") in ("AccessSpecDecl",) or c.get("kind", "").endswith("Comment"):
                    continue
                if c.get("kind") == "CXXRecordDecl":
                    add("nested-class %s::%s" % (nm, c.get("name")), kind="CXXRecordDecl")
                    continue
                member(nm, c)
        elif k in ("CXXMethodDecl", "CXXConstructorDecl", "CXXDestructorDecl", "CXXConversionDecl"):
            # out-of-class definition: class from the mangled / parent name is not in the JSON; matched by signature below
            pass
        elif k == "FunctionDecl" and (functions is None or functions(nm)):
            marks = " [deleted]" if d.get("explicitlyDeleted") else ""
            ta = [x for x in inner(d) if x.get("kind") == "TemplateArgument"]
            if ta:
                marks += " [specialization <%s>]" % ", ".join(str((t.get("type") or {}).get("qualType") or t.get("value")) for t in ta)
            add("%s %s%s" % (nm, _sig(d), marks), kind=k, has_body=body_of(d) is not None)
        elif k == "FunctionTemplateDecl" and (functions is None or functions(nm)):
            prim = None
            for f in inner(d):
                if f.get("kind") == "FunctionDecl":
                    ta = [x for x in inner(f) if x.get("kind") == "TemplateArgument"]
                    if not ta and prim is None:
                        prim = f
                        add("%s %s [template]%s" % (nm, _sig(f), " [deleted]" if f.get("explicitlyDeleted") else ""), kind=k)
                    elif ta:
                        add("%s %s [instantiation <%s>]" % (nm, _sig(f), ", ".join(str((t.get("type") or {}).get("qualType") or t.get("value")) for t in ta)), kind="inst")
        elif k == "VarDecl" and (functions is None or functions(nm)) and not d.get("isImplicit"):
            pass
    return out


def cover_check(inv, cover, counts):
    """inv: {declaration key: info} found in the working tree; cover: {key: {'by': [theorems], 'ops': [count keys]} | {'out': reason}};
    counts: {count key: executed cases}.  Returns (problems, report): problems name every declaration that is new, gone/changed, or
    covered by nothing that ran; report = {key: executed count | 'out of scope: ...'}."""
    problems, report = [], {}
    for k in sorted(inv):
        if k not in cover:
            problems.append("inventory: declaration not in the COVER table (new or changed signature): %s" % k)
    for k in sorted(cover):
        e = cover[k]
        if k not in inv:
            problems.append("inventory: COVER entry has no declaration in the working tree any more (removed or signature changed): %s" % k)
            continue
        if "out" in e:
            report[k] = "out of scope: " + e["out"]
            continue
        n = sum(int(counts.get(o, 0)) for o in e.get("ops", []))
        report[k] = n
        if n == 0:
            problems.append("inventory: covered declaration with no executed case in this run: %s (operations %s)" % (k, e.get("ops")))
    return problems, report
