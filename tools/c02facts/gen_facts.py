#!/usr/bin/env python3
"""C02 fact table: derive from the clang AST of the repository's CURRENT working tree
  * the declaration order (= construction order) of the data members of AsyncTask<T>, by role
    (role is decided by the member's TYPE: std::atomic<bool>/bool -> flag, AsyncTaskImpl -> impl, T -> result),
  * the statement order of the task lambda handed to taskImpl,
  * the shape of get() and whether the destructor waits,
  * async(): the events on the heap packaged_task before / after the schedule() call and in the closure,
  * schedule_internal: the statements of LocalTask::ExecuteRange,
  * TryRunTask: whether the decrement of m_RunningCount follows ExecuteRange,
and write them as Coq definitions (coq/C02/gen/Facts.v).

usage: gen_facts.py <repo> <include-dir-with-version.h> <out.v> [workdir]
"""
import os, subprocess, sys
HERE = os.path.dirname(os.path.abspath(__file__))
sys.path.insert(0, os.path.join(os.path.dirname(HERE), "cxx2coq"))
import astutil  # load_docs, walk


class FactError(Exception):
    pass


def dump(repo, inc, src, flt, out, defs=()):
    cmd = ["clang++", "-std=c++11", "-fsyntax-only", "-I" + repo, "-I" + inc] + list(defs) + \
          ["-Xclang", "-ast-dump=json", "-Xclang", "-ast-dump-filter=" + flt, src]
    with open(out, "w") as f:
        p = subprocess.run(cmd, stdout=f, stderr=subprocess.PIPE, timeout=120, universal_newlines=True)
    if p.returncode != 0:
        raise FactError("clang failed on %s: %s" % (src, p.stderr[-1500:]))
    return astutil.load_docs(out)


def kids(n):
    return [c for c in (n.get("inner") or []) if isinstance(c, dict) and c]


def find_all(n, pred):
    return [x for x, _ in astutil.walk(n) if pred(x)]


def member_names(n):
    """names of MemberExpr nodes in evaluation (pre-order) order"""
    return [x.get("name") or x.get("member") for x, _ in astutil.walk(n)
            if x.get("kind") in ("MemberExpr", "CXXDependentScopeMemberExpr")]


def is_assign(n):
    if n.get("kind") == "BinaryOperator" and n.get("opcode") == "=":
        return True
    if n.get("kind") == "CXXOperatorCallExpr":
        for x, _ in astutil.walk(kids(n)[0]) if kids(n) else []:
            ref = x.get("referencedDecl") or {}
            if ref.get("name") == "operator=":
                return True
    if n.get("kind") == "CXXMemberCallExpr":   # flag.store(true)
        k = kids(n)
        if k and k[0].get("kind") == "MemberExpr" and k[0].get("name") == "store":
            return True
    return False


def assign_lhs_field(n, fields):
    """field (by name) that an assignment node writes"""
    k = kids(n)
    if n.get("kind") == "BinaryOperator":
        lhs = k[0]
    elif n.get("kind") == "CXXOperatorCallExpr":
        lhs = k[1]
    else:
        lhs = kids(k[0])[0] if kids(k[0]) else k[0]
    for nm in member_names(lhs):
        if nm in fields:
            return nm
    return None


def calls_named(n, name):
    for x, _ in astutil.walk(n):
        if x.get("kind") in ("MemberExpr", "CXXDependentScopeMemberExpr") and (x.get("name") == name or x.get("member") == name):
            return True
        if x.get("kind") in ("UnresolvedLookupExpr", "DeclRefExpr") and \
                (x.get("name") == name or (x.get("referencedDecl") or {}).get("name") == name):
            return True
    return False


def lambda_body(lam):
    """the CompoundStmt child of a LambdaExpr"""
    bodies = [c for c in kids(lam) if c.get("kind") == "CompoundStmt"]
    if not bodies:
        raise FactError("lambda without body")
    return bodies[-1]


# --------------------------------------------------------------------------- AsyncTask
def asynctask_facts(docs):
    rec = None
    for d in docs:
        for n, ps in astutil.walk(d):
            if n.get("kind") == "ClassTemplateDecl" and n.get("name") == "AsyncTask":
                for c in kids(n):
                    if c.get("kind") == "CXXRecordDecl" and c.get("completeDefinition"):
                        rec = c
            if rec: break
        if rec: break
    if rec is None:
        raise FactError("class template AsyncTask not found")
    tparam = "T"
    fields = [(c.get("name"), c.get("type", {}).get("qualType", "")) for c in kids(rec) if c.get("kind") == "FieldDecl"]
    role = {}
    order = []
    for nm, ty in fields:
        t = ty.replace(" ", "")
        if "AsyncTaskImpl" in t:
            r = "MImpl"
        elif t in ("std::atomic<bool>", "atomic<bool>", "std::atomic_bool", "bool", "volatilebool"):
            r = "MFlag"
        elif t == tparam:
            r = "MRet"
        else:
            continue          # an unrelated extra member: no role in the protocol
        if r in role.values():
            raise FactError("two members with role %s" % r)
        role[nm] = r
        order.append(r)
    if sorted(order) != ["MFlag", "MImpl", "MRet"]:
        raise FactError("AsyncTask members by role: %s (fields %s)" % (order, fields))
    flag_atomic = any("atomic" in ty for nm, ty in fields if role.get(nm) == "MFlag")
    # constructor lambda
    ctor = [c for c in kids(rec) if c.get("kind") == "CXXConstructorDecl" and not c.get("isImplicit")]
    lam = None
    for c in ctor:
        ls = find_all(c, lambda x: x.get("kind") == "LambdaExpr")
        if ls:
            lam = ls[0]
            break
    if lam is None:
        raise FactError("no lambda in the AsyncTask constructor")
    task = []
    for st in kids(lambda_body(lam)):
        for a in find_all(st, is_assign):
            f = assign_lhs_field(a, role)
            if f and role[f] == "MRet":
                task.append("StAssignRet")
            elif f and role[f] == "MFlag":
                task.append("StSetFlag")
    # get()
    get = [c for c in kids(rec) if c.get("kind") == "CXXMethodDecl" and c.get("name") == "get"]
    if not get:
        raise FactError("AsyncTask::get not found")
    gbody = [c for c in kids(get[0]) if c.get("kind") == "CompoundStmt"][0]
    flagname = [k for k, v in role.items() if v == "MFlag"][0]
    kind = "GetNoWait"
    for st in kids(gbody):
        if st.get("kind") == "ReturnStmt":
            break
        if st.get("kind") == "IfStmt":
            k = kids(st)
            if flagname in member_names(k[0]) and any(calls_named(b, "wait") for b in k[1:]):
                kind = "GetGuarded"
                break
        if calls_named(st, "wait"):
            kind = "GetAlwaysWait"
            break
    dtor = [c for c in kids(rec) if c.get("kind") == "CXXDestructorDecl"]
    dtor_waits = bool(dtor) and calls_named(dtor[0], "wait")
    return order, task, kind, dtor_waits, flag_atomic


# ------------------------------------------------------------------------------- async
def async_facts(docs):
    fn = None
    for d in docs:
        for n, ps in astutil.walk(d):
            if n.get("kind") == "FunctionTemplateDecl" and n.get("name") == "async":
                fn = [c for c in kids(n) if c.get("kind") == "FunctionDecl"][0]
                break
        if fn: break
    if fn is None:
        raise FactError("function template async not found")
    body = [c for c in kids(fn) if c.get("kind") == "CompoundStmt"][0]

    def events(st, skip_lambda=True):
        out = []

        def rec(n):
            if skip_lambda and n.get("kind") == "LambdaExpr":
                return
            if n.get("kind") == "CXXNewExpr":
                out.append("AAlloc")
            if n.get("kind") == "CXXDeleteExpr":
                out.append("ADelete")
            if n.get("kind") in ("CXXDependentScopeMemberExpr", "MemberExpr") and \
                    (n.get("member") == "get_future" or n.get("name") == "get_future"):
                out.append("AGetFuture")
            if n.get("kind") in ("CallExpr", "CXXOperatorCallExpr"):
                k = kids(n)
                if k and find_all(k[0], lambda x: x.get("kind") == "UnaryOperator" and x.get("opcode") == "*"):
                    out.append("AInvoke")
            for c in kids(n):
                rec(c)
        rec(st)
        return out
    pre, post, clos, seen = [], [], None, False
    for st in kids(body):
        lams = find_all(st, lambda x: x.get("kind") == "LambdaExpr")
        if calls_named(st, "schedule") and lams and not seen:
            seen = True
            pre += events(st)           # argument evaluation other than the lambda itself
            clos = []
            for s in kids(lambda_body(lams[0])):
                clos += events(s, skip_lambda=False)
        elif not seen:
            pre += events(st)
        else:
            post += events(st)
    if clos is None:
        raise FactError("async: no schedule(lambda) call found")
    return pre, post, clos


# ------------------------------------------------------------------- schedule_internal
def sched_facts(docs):
    """schedule_internal's LocalTask::ExecuteRange: statement tokens (XBody / XFreeSelf / XDefer), the kind of the per-thread reclaim
    slot (raw pointer: usable after the thread's TLS destructors / owning object: destroyed by them) and whether something reclaims the
    slot at thread exit"""
    fn = None
    for d in docs:
        for n, ps in astutil.walk(d):
            if n.get("kind") == "FunctionTemplateDecl" and n.get("name") == "schedule_internal":
                fn = [c for c in kids(n) if c.get("kind") == "FunctionDecl"][0]
                break
        if fn: break
    if fn is None:
        raise FactError("schedule_internal not found")
    ex = find_all(fn, lambda x: x.get("kind") == "CXXMethodDecl" and x.get("name") == "ExecuteRange")
    if not ex:
        raise FactError("schedule_internal: LocalTask::ExecuteRange not found")
    body = [c for c in kids(ex[0]) if c.get("kind") == "CompoundStmt"][0]
    fields = [c.get("name") for c in find_all(fn, lambda x: x.get("kind") == "FieldDecl")]
    has_this = lambda n: bool(find_all(n, lambda x: x.get("kind") == "CXXThisExpr"))

    def strip(n):
        while n.get("kind") in ("ExprWithCleanups", "ImplicitCastExpr", "ParenExpr") and len(kids(n)) == 1:
            n = kids(n)[0]
        return n

    def refs(n):
        return [(x.get("referencedDecl") or {}).get("name") for x, _ in astutil.walk(n) if x.get("kind") == "DeclRefExpr"]
    # per-thread variables declared in the body
    tls = {}
    for st in kids(body):
        if st.get("kind") == "DeclStmt":
            for v in kids(st):
                if v.get("kind") == "VarDecl" and v.get("tls"):
                    tls[v.get("name")] = v.get("type", {}).get("qualType", "")
    slot = None
    xs = []
    copies = set()        # locals initialised from the slot ("previous")
    for st in kids(body):
        s = strip(st)
        k = s.get("kind")
        if k == "DeclStmt":
            for v in kids(s):
                if v.get("kind") == "VarDecl" and not v.get("tls") and any(r in tls for r in refs(v)):
                    copies.add(v.get("name"))
            continue
        if k in ("CStyleCastExpr", "NullStmt"):
            continue
        if k == "CXXDeleteExpr":
            if has_this(s):
                xs.append("XFreeSelf")
            elif all(r in tls or r in copies for r in refs(s)) and refs(s):
                pass                       # reclaiming the task this thread finished BEFORE: part of the hand-over
            else:
                xs.append("XFreeSelf")     # an unknown delete: fail closed
            continue
        if k == "BinaryOperator" and s.get("opcode") == "=" and strip(kids(s)[1]).get("kind") == "CXXThisExpr" and refs(kids(s)[0])[:1] and refs(kids(s)[0])[0] in tls:
            slot = refs(kids(s)[0])[0]
            xs.append("XDefer")
            continue
        if k in ("CallExpr", "CXXMemberCallExpr", "CXXOperatorCallExpr"):
            kk = kids(s)
            callee_members = member_names(kk[0]) if kk else []
            if any(has_this(a) for a in kk[1:]):
                slot = ([r for r in refs(kk[0]) if r in tls] or [None])[0]
                xs.append("XDefer")        # hands `this` to the slot (e.g. slot.reset(this))
                continue
            if any(m in fields for m in callee_members):
                xs.append("XBody")
                continue
        xs.append("XFreeSelf" if find_all(s, lambda x: x.get("kind") == "CXXDeleteExpr") else "XBody" if False else "XFreeSelf")
    ty = (tls.get(slot) or "").replace(" ", "")
    kind = "SlotRawPointer" if ty.endswith("*") else "SlotOwningObject" if "unique_ptr" in ty else "SlotUnknown"
    # something reclaims the slot at thread exit: an owning slot does it itself; otherwise a thread_local object of a local class
    # whose destructor deletes the slot
    at_exit = kind == "SlotOwningObject"
    for st in kids(body):
        for rec in find_all(st, lambda x: x.get("kind") == "CXXRecordDecl" and x.get("completeDefinition")):
            dt = [c for c in kids(rec) if c.get("kind") == "CXXDestructorDecl"]
            if dt and slot and any(x.get("kind") == "CXXDeleteExpr" and slot in refs(x) for x, _ in astutil.walk(dt[0])) and \
                    any(rec.get("name") and rec.get("name") in (tls[v] or "") for v in tls):
                at_exit = True
    return xs, kind, at_exit


def tryrun_facts(docs):
    fn = None
    for d in docs:
        for n, ps in astutil.walk(d):
            if n.get("kind") == "CXXMethodDecl" and n.get("name") == "TryRunTask" and \
                    any(c.get("kind") == "CompoundStmt" for c in kids(n)):
                fn = n
                break
        if fn: break
    if fn is None:
        raise FactError("TaskScheduler::TryRunTask definition not found")
    seq = []
    for x, _ in astutil.walk(fn):
        if x.get("kind") == "CXXMemberCallExpr":
            k = kids(x)
            if k and k[0].get("kind") == "MemberExpr" and k[0].get("name") == "ExecuteRange":
                seq.append("E")
        if x.get("kind") == "CallExpr":
            k = kids(x)
            if k and calls_named(k[0], "AtomicAdd") and "m_RunningCount" in member_names(x):
                seq.append("A")
    if not seq or "E" not in seq:
        raise FactError("TryRunTask: no ExecuteRange call")
    s = "".join(seq)
    dec_after = s.replace("EA", "") == ""
    return dec_after, s



def wake_facts(docs):
    """WakeThreads: every read of m_NumThreadsWaiting goes through an atomic RMW (AtomicAdd / fetch_add) or follows an explicit
    full fence; WaitForTasks: m_NumThreadsWaiting is incremented by an atomic RMW before the first IsPipeEmpty()"""
    def method(name):
        for d in docs:
            for n, ps in astutil.walk(d):
                if n.get("kind") == "CXXMethodDecl" and n.get("name") == name and any(c.get("kind") == "CompoundStmt" for c in kids(n)):
                    return n
        return None
    FENCES = ("__sync_synchronize", "atomic_thread_fence", "_mm_mfence", "MemoryBarrier", "__atomic_thread_fence")
    RMW = ("AtomicAdd", "fetch_add", "__sync_fetch_and_add", "__atomic_fetch_add", "_InterlockedExchangeAdd")

    def called(n):
        out = []
        for x, _ in astutil.walk(n):
            if x.get("kind") in ("CallExpr", "CXXMemberCallExpr"):
                k = kids(x)
                for y, _ in astutil.walk(k[0]) if k else []:
                    nm = (y.get("referencedDecl") or {}).get("name") or (y.get("name") if y.get("kind") == "MemberExpr" else None)
                    if nm:
                        out.append((nm, x))
                        break
        return out
    wk, wt = method("WakeThreads"), method("WaitForTasks")
    if wk is None or wt is None:
        raise FactError("WakeThreads / WaitForTasks not found")
    # scheduler side
    body = [c for c in kids(wk) if c.get("kind") == "CompoundStmt"][0]
    stmts = kids(body)
    first_is_fence = bool(stmts) and any(nm in FENCES for nm, _ in called(stmts[0]))
    inside_rmw = set()
    for nm, call in called(body):
        if nm in RMW:
            for y, _ in astutil.walk(call):
                inside_rmw.add(id(y))
    reads = [x for x, _ in astutil.walk(body) if x.get("kind") == "MemberExpr" and x.get("name") == "m_NumThreadsWaiting"]
    wake_fenced = bool(reads) and (first_is_fence or all(id(x) in inside_rmw for x in reads))
    # worker side
    body = [c for c in kids(wt) if c.get("kind") == "CompoundStmt"][0]
    wait_fenced = False
    for st in kids(body):
        cs = called(st)
        if any(nm == "IsPipeEmpty" for nm, _ in cs):
            break
        for nm, call in cs:
            if nm in RMW and any(y.get("kind") == "MemberExpr" and y.get("name") == "m_NumThreadsWaiting" for y, _ in astutil.walk(call)):
                wait_fenced = True
        if wait_fenced:
            break
    return wake_fenced, wait_fenced



# ------------------------------------------------------------------ memory orders of the flag operations
ORDERS = {"memory_order_relaxed": "MRelaxed", "memory_order_consume": "MConsume", "memory_order_acquire": "MAcquire",
          "memory_order_release": "MRelease", "memory_order_acq_rel": "MAcqRel", "memory_order_seq_cst": "MSeqCst"}


def flag_orders(docs):
    """(store orders in the task closure, load orders in the other member functions) of the flag member of AsyncTask<T>"""
    rec = None
    for d in docs:
        for n, ps in astutil.walk(d):
            if n.get("kind") == "ClassTemplateDecl" and n.get("name") == "AsyncTask":
                for c in kids(n):
                    if c.get("kind") == "CXXRecordDecl" and c.get("completeDefinition"):
                        rec = c
    if rec is None:
        raise FactError("AsyncTask not found")
    flag, atomic = None, False
    for c in kids(rec):
        if c.get("kind") == "FieldDecl":
            ty = c.get("type", {}).get("qualType", "").replace(" ", "")
            if ty in ("std::atomic<bool>", "atomic<bool>", "std::atomic_bool", "bool", "volatilebool"):
                flag, atomic = c.get("name"), "atomic" in ty
    if flag is None:
        raise FactError("flag member not found")
    stores, loads = [], []

    def order_arg(call, default):
        for a in kids(call)[1:]:
            for x, _ in astutil.walk(a):
                nm = (x.get("referencedDecl") or {}).get("name", "")
                if nm in ORDERS:
                    return ORDERS[nm]
            if [x for x, _ in astutil.walk(a) if x.get("kind") == "DeclRefExpr" and "memory_order" in x.get("type", {}).get("qualType", "")]:
                return "MRelaxed"      # an order we cannot name: assume the weakest
        return default

    def visit(n, parents):
        if n.get("kind") == "MemberExpr" and n.get("name") == flag and kids(n) and kids(n)[0].get("kind") == "CXXThisExpr":
            if not atomic:
                # classify by syntactic position: assignment target = store
                par = parents[-1] if parents else {}
                is_store = par.get("kind") == "BinaryOperator" and par.get("opcode") == "=" and kids(par)[0] is n
                (stores if is_store else loads).append("MNonAtomic")
                return
            # climb to the operation applied to the flag
            op, node = None, n
            for par in reversed(parents):
                k = par.get("kind")
                if k in ("ImplicitCastExpr", "ParenExpr"):
                    node = par
                    continue
                if k == "MemberExpr" and kids(par) and kids(par)[0] is node:
                    op, node = par.get("name"), par
                    continue
                if k == "CXXMemberCallExpr" and kids(par)[0] is node:
                    if op == "store":
                        stores.append(order_arg(par, "MSeqCst"))
                    elif op == "load":
                        loads.append(order_arg(par, "MSeqCst"))
                    elif op in ("exchange", "compare_exchange_strong", "compare_exchange_weak", "fetch_or", "fetch_and"):
                        o = order_arg(par, "MSeqCst"); stores.append(o); loads.append(o)
                    elif op and op.startswith("operator"):     # conversion operator: a seq_cst load
                        loads.append("MSeqCst")
                    else:
                        loads.append("MRelaxed"); stores.append("MRelaxed")    # unknown operation: fail closed
                    return
                if k == "CXXOperatorCallExpr":
                    stores.append("MSeqCst")      # operator= on std::atomic: a seq_cst store
                    return
                break
            loads.append("MRelaxed"); stores.append("MRelaxed")                # unknown use: fail closed
    def rec_walk(n, parents):
        visit(n, parents)
        for c in kids(n):
            rec_walk(c, parents + [n])
    for c in kids(rec):
        if c.get("kind") in ("CXXConstructorDecl", "CXXMethodDecl", "CXXDestructorDecl") and not c.get("isImplicit"):
            rec_walk(c, [])
    return stores, loads


# ------------------------------------------------------ complete statement lists of the per-backend glue code
def stmt_leaves(body):
    for c in kids(body):
        if c.get("kind") == "CompoundStmt":
            yield from stmt_leaves(c)
        elif c.get("kind") != "NullStmt":
            yield c


def names_in(n):
    out = []
    for x, _ in astutil.walk(n):
        if x.get("kind") == "MemberExpr" and x.get("name"):
            out.append(x["name"])
        if x.get("kind") in ("DeclRefExpr",) and (x.get("referencedDecl") or {}).get("name"):
            out.append(x["referencedDecl"]["name"])
        if x.get("kind") == "UnresolvedLookupExpr" and x.get("name"):
            out.append(x["name"])
    return out


def token(st, param):
    k = st.get("kind")
    if k == "DeclStmt":
        vs = [v for v in kids(st) if v.get("kind") == "VarDecl"]
        if len(vs) != 1 or len(kids(st)) != 1:
            return "SUnknown"
        v = vs[0]
        if v.get("storageClass") or v.get("tls"):
            return "SUnknown"             # static / thread_local local: shared between calls
        ty = v.get("type", {}).get("qualType", "")
        nm = names_in(v)
        attaches = "attach" in nm or any("attach" in x.get("type", {}).get("qualType", "") for x, _ in astutil.walk(v) if x is not v)
        if "task_arena" in ty and attaches:
            return "SArenaLocal"
        if ty.replace(" ", "") in ("std::thread", "thread") and param in nm:
            return "SThreadLocal"
        return "SUnknown"
    if k == "IfStmt":
        ks = kids(st)
        if len(ks) == 2 and "joinable" in names_in(ks[0]) and names_in(ks[1])[:1] == ["join"] and \
                len([x for x, _ in astutil.walk(st) if x.get("kind") in ("CallExpr", "CXXMemberCallExpr")]) == 2:
            return "SJoinIfJoinable"
        return "SUnknown"
    s = st
    while s.get("kind") in ("ExprWithCleanups", "ImplicitCastExpr", "ParenExpr") and len(kids(s)) == 1:
        s = kids(s)[0]
    if s.get("kind") in ("CallExpr", "CXXMemberCallExpr", "CXXOperatorCallExpr"):
        calls = [x for x, _ in astutil.walk(s) if x.get("kind") in ("CallExpr", "CXXMemberCallExpr", "CXXOperatorCallExpr")]
        callee = names_in(kids(s)[0])
        args = [nm for a in kids(s)[1:] for nm in names_in(a)]
        inner_ok = all(names_in(kids(c)[0])[:1] in (["forward"], ["move"]) for c in calls[1:])
        if not inner_ok:
            return "SUnknown"
        head = callee[0] if callee else None
        if s.get("kind") == "CXXOperatorCallExpr" and param in args[:2] and "operator()" in callee:
            return "SCallDirect"
        if head == param and s.get("kind") == "CallExpr":
            return "SCallDirect"
        table = {"enqueue": "SEnqueue", "detach": "SDetach", "schedule_internal": "SCallInternal", "run": "SRun",
                 "scheduleTaskInternal": "SSchedInternal", "waitInternal": "SWaitInternal", "wait": "SWaitGroup"}
        if head in table:
            tok = table[head]
            if tok in ("SEnqueue", "SCallInternal", "SRun") and param not in args:
                return "SUnknown"
            return tok
    return "SUnknown"


def glue_facts(docs, backend):
    """schedule_impl (instantiated), AsyncTaskImpl constructor and wait() (instantiated): complete statement lists"""
    sched = None
    for d in docs:
        for n, ps in astutil.walk(d):
            if n.get("kind") == "FunctionTemplateDecl" and n.get("name") == "schedule_impl":
                fns = [c for c in kids(n) if c.get("kind") == "FunctionDecl" and any(x.get("kind") == "CompoundStmt" for x in kids(c))]
                if len(fns) >= 2:
                    sched = fns[-1]          # an instantiation (member names resolved)
    if sched is None:
        raise FactError("%s: no instantiation of schedule_impl" % backend)
    pn = [c.get("name") for c in kids(sched) if c.get("kind") == "ParmVarDecl"][0]
    body = [c for c in kids(sched) if c.get("kind") == "CompoundStmt"][0]
    s_list = [token(st, pn) for st in stmt_leaves(body)]
    spec = None
    for d in docs:
        for n, ps in astutil.walk(d):
            if n.get("kind") == "ClassTemplateSpecializationDecl" and n.get("name") == "AsyncTaskImpl" and n.get("completeDefinition"):
                spec = n
    if spec is None:
        raise FactError("%s: no instantiation of AsyncTaskImpl" % backend)
    ctor = [c for c in kids(spec) if c.get("kind") == "CXXConstructorDecl" and not c.get("isImplicit") and
            any(x.get("kind") == "CompoundStmt" for x in kids(c))]
    wait = [c for c in kids(spec) if c.get("kind") == "CXXMethodDecl" and c.get("name") == "wait" and
            any(x.get("kind") == "CompoundStmt" for x in kids(c))]
    if len(ctor) != 1 or len(wait) != 1:
        raise FactError("%s: AsyncTaskImpl constructor / wait() not instantiated" % backend)
    cp = [c.get("name") for c in kids(ctor[0]) if c.get("kind") == "ParmVarDecl"][0]
    c_list = []
    for ini in [c for c in kids(ctor[0]) if c.get("kind") == "CXXCtorInitializer"]:
        if ini.get("anyInit") and not ini.get("isWritten", True):
            continue
        nm = names_in(ini)
        written = any((x.get("range") or {}).get("begin") for x, _ in astutil.walk(ini))
        if cp in nm:
            c_list.append("SInitMember")
        elif nm or written and [x for x, _ in astutil.walk(ini) if x.get("kind") in ("CallExpr", "CXXMemberCallExpr")]:
            c_list.append("SUnknown")
    cb = [c for c in kids(ctor[0]) if c.get("kind") == "CompoundStmt"][0]
    c_list += [token(st, cp) for st in stmt_leaves(cb)]
    wb = [c for c in kids(wait[0]) if c.get("kind") == "CompoundStmt"][0]
    w_list = [token(st, "") for st in stmt_leaves(wb)]
    return s_list, c_list, w_list


def async_unknown(docs):
    """statements of async() other than: static_assert / alias declarations, the new, get_future, schedule(lambda), return future"""
    fn = None
    for d in docs:
        for n, ps in astutil.walk(d):
            if n.get("kind") == "FunctionTemplateDecl" and n.get("name") == "async":
                fn = [c for c in kids(n) if c.get("kind") == "FunctionDecl"][0]
    body = [c for c in kids(fn) if c.get("kind") == "CompoundStmt"][0]
    unknown = 0
    for st in kids(body):
        k = st.get("kind")
        if k == "DeclStmt":
            for dcl in kids(st):
                if dcl.get("kind") in ("StaticAssertDecl", "TypeAliasDecl", "TypedefDecl"):
                    continue
                if dcl.get("kind") == "VarDecl" and not dcl.get("storageClass") and \
                        ([x for x, _ in astutil.walk(dcl) if x.get("kind") == "CXXNewExpr"] or
                         [x for x, _ in astutil.walk(dcl) if x.get("member") == "get_future" or x.get("name") == "get_future"]):
                    continue
                unknown += 1
        elif k == "ReturnStmt":
            continue
        elif calls_named(st, "schedule") and find_all(st, lambda x: x.get("kind") == "LambdaExpr"):
            continue
        else:
            unknown += 1
    return unknown



# --------------------------------------------------------------- LockLessMultiReadPipe: how slots are claimed
def pipe_facts(docs):
    """per claim site, every access to m_Flags[...]:  CAS(swapTo, compareWith) / plain store / plain load.
       reader-side claims (WriterTryReadFront, ReaderTryReadBack): ClaimCAS iff the ONLY accesses are one
       AtomicCompareAndSwap(&m_Flags[i], FLAG_INVALID, FLAG_CAN_READ) and one plain store of FLAG_CAN_WRITE (slot handed back
       after the copy); ClaimCheckThenStore if the slot is claimed by a plain load and a plain store of FLAG_INVALID; else ClaimUnknown.
       WriterTryWriteFront (single writer): WGNotCanWrite iff one plain load compared `!= FLAG_CAN_WRITE` guards an early
       `return false` and one plain store of FLAG_CAN_READ publishes; else WGOther."""
    def method(name):
        best = None
        for d in docs:
            for n, ps in astutil.walk(d):
                if n.get("kind") == "CXXMethodDecl" and n.get("name") == name and any(c.get("kind") == "CompoundStmt" for c in kids(n)):
                    best = n          # the last one is the instantiation
        return best

    def is_flags(n):
        while n.get("kind") in ("ImplicitCastExpr", "ParenExpr", "UnaryOperator") and kids(n):
            n = kids(n)[0]
        return n.get("kind") == "ArraySubscriptExpr" and any(x.get("kind") == "MemberExpr" and x.get("name") == "m_Flags" for x, _ in astutil.walk(n))

    def const_name(n):
        for x, _ in astutil.walk(n):
            nm = (x.get("referencedDecl") or {}).get("name", "")
            if nm.startswith("FLAG_"):
                return nm
        return None

    def accesses(fn):
        cas, stores, loads, covered = [], [], [], set()
        for x, _ in astutil.walk(fn):
            if x.get("kind") == "CallExpr":
                k = kids(x)
                callee = [(y.get("referencedDecl") or {}).get("name") or (y.get("name") if y.get("kind") == "UnresolvedLookupExpr" else None)
                          for y, _ in astutil.walk(k[0])] if k else []
                if "AtomicCompareAndSwap" in callee and len(k) == 4 and is_flags(k[1]):
                    cas.append((const_name(k[2]), const_name(k[3])))
                    for y, _ in astutil.walk(x):
                        covered.add(id(y))
            if x.get("kind") == "BinaryOperator" and x.get("opcode") == "=" and is_flags(kids(x)[0]):
                stores.append(const_name(kids(x)[1]))
                for y, _ in astutil.walk(kids(x)[0]):
                    covered.add(id(y))
        cmp_loads = []
        for x, ps in astutil.walk(fn):
            if x.get("kind") == "MemberExpr" and x.get("name") == "m_Flags" and id(x) not in covered:
                # a plain load; find the comparison it feeds (if any)
                cmpn = None
                for par in reversed(ps):
                    if par.get("kind") == "BinaryOperator" and par.get("opcode") in ("==", "!="):
                        cmpn = (par.get("opcode"), const_name(par))
                        break
                    if par.get("kind") in ("CompoundStmt", "IfStmt", "WhileStmt", "DeclStmt"):
                        break
                loads.append(cmpn)
        return cas, stores, loads

    out = {}
    for name in ("WriterTryReadFront", "ReaderTryReadBack"):
        fn = method(name)
        if fn is None:
            raise FactError("LockLessMultiReadPipe::%s not found" % name)
        cas, stores, loads = accesses(fn)
        if cas == [("FLAG_INVALID", "FLAG_CAN_READ")] and stores == ["FLAG_CAN_WRITE"] and not loads:
            out[name] = "ClaimCAS"
        elif not cas and "FLAG_INVALID" in stores and loads:
            out[name] = "ClaimCheckThenStore"
        else:
            out[name] = "ClaimUnknown"
    fn = method("WriterTryWriteFront")
    if fn is None:
        raise FactError("LockLessMultiReadPipe::WriterTryWriteFront not found")
    cas, stores, loads = accesses(fn)
    out["WriterTryWriteFront"] = "WGNotCanWrite" if (not cas and stores == ["FLAG_CAN_READ"] and loads == [("!=", "FLAG_CAN_WRITE")]) else "WGOther"
    return out



# ------------------------------------------------------------------------------- scheduler teardown
def teardown_facts(docs, tsdocs):
    """WaitforAll's loop condition; the steps of WaitforAllAndShutdown; ~TaskScheduler calls it;
       TaskSys.cpp: is the old scheduler drained (WaitforAll on g_ts) before g_ts is replaced"""
    def method(name, kind="CXXMethodDecl"):
        for d in docs:
            for n, ps in astutil.walk(d):
                if n.get("kind") == kind and n.get("name") == name and any(c.get("kind") == "CompoundStmt" for c in kids(n)):
                    return n
        return None

    def callee(x):
        k = kids(x)
        for y, _ in astutil.walk(k[0]) if k else []:
            nm = (y.get("referencedDecl") or {}).get("name") or (y.get("name") if y.get("kind") == "MemberExpr" else None)
            if nm:
                return nm
        return None
    wa = method("WaitforAll")
    if wa is None:
        raise FactError("TaskScheduler::WaitforAll not found")
    loops = [x for x, _ in astutil.walk(wa) if x.get("kind") == "WhileStmt"]
    cond = "LOther"
    if len(loops) == 1:
        c = kids(loops[0])[0]
        while c.get("kind") in ("ParenExpr", "ImplicitCastExpr") and len(kids(c)) == 1:
            c = kids(c)[0]
        if c.get("kind") == "BinaryOperator" and c.get("opcode") in ("||", "&&"):
            a, b = kids(c)
            an = [(y.get("referencedDecl") or {}).get("name") for y, _ in astutil.walk(a)]
            bn = [y.get("name") for y, _ in astutil.walk(b) if y.get("kind") == "MemberExpr"] + \
                 [(y.get("referencedDecl") or {}).get("name") for y, _ in astutil.walk(b)]
            bb = b
            while bb.get("kind") in ("ParenExpr", "ImplicitCastExpr") and len(kids(bb)) == 1:
                bb = kids(bb)[0]
            if "bHaveTasks" in an and len([x for x in an if x]) == 1 and bb.get("kind") == "BinaryOperator" and bb.get("opcode") == "<" \
                    and "m_NumThreadsWaiting" in bn and "threadsRunning" in bn:
                # the body must run TryRunTask into bHaveTasks
                if any(x.get("kind") == "CallExpr" or x.get("kind") == "CXXMemberCallExpr" and callee(x) == "TryRunTask" for x, _ in astutil.walk(loops[0])):
                    cond = "LOr" if c["opcode"] == "||" else "LAnd"
    sd = method("WaitforAllAndShutdown")
    steps = []
    if sd is not None:
        body = [c for c in kids(sd) if c.get("kind") == "CompoundStmt"][0]
        for st in kids(body):
            if st.get("kind") == "CXXMemberCallExpr" and callee(st) == "WaitforAll":
                steps.append("SdDrain")
            elif st.get("kind") == "CXXMemberCallExpr" and callee(st) == "StopThreads":
                steps.append("SdStopThreads")
            elif st.get("kind") == "CXXDeleteExpr":
                steps.append("SdFreePipes")
            elif st.get("kind") == "BinaryOperator" and st.get("opcode") == "=" and \
                    any(y.get("kind") in ("IntegerLiteral", "GNUNullExpr", "CXXNullPtrLiteralExpr") for y, _ in astutil.walk(kids(st)[1])):
                continue          # pointer = 0 after the delete
            else:
                steps.append("SdOther")
    else:
        steps = ["SdOther"]
    dt = method("~TaskScheduler", "CXXDestructorDecl")
    dtor_ok = dt is not None and any(x.get("kind") == "CXXMemberCallExpr" and callee(x) == "WaitforAllAndShutdown" for x, _ in astutil.walk(dt))
    # TaskSys.cpp
    drains_first = False
    for d in tsdocs:
        for n, ps in astutil.walk(d):
            if n.get("kind") == "FunctionDecl" and n.get("name") == "initTaskSystemInternal" and any(c.get("kind") == "CompoundStmt" for c in kids(n)):
                body = [c for c in kids(n) if c.get("kind") == "CompoundStmt"][0]
                for st in kids(body):
                    if any(x.get("kind") == "CXXNewExpr" for x, _ in astutil.walk(st)):
                        break
                    if any(x.get("kind") == "CXXMemberCallExpr" and callee(x) in ("WaitforAll", "WaitforAllAndShutdown") for x, _ in astutil.walk(st)):
                        drains_first = True
    return cond, steps, dtor_ok, drains_first



def wake_policy(docs):
    """SplitAndAddTask: the else-branch of `if (!pipe.WriterTryWriteFront(..))` (= successful write) must be exactly one
    unconditional WakeThreads(..) call -> WakeEveryPush; a WakeThreads under a condition mentioning IsPipeEmpty -> WakeOnEmptyToNonEmpty"""
    fn = None
    for d in docs:
        for n, ps in astutil.walk(d):
            if n.get("kind") == "CXXMethodDecl" and n.get("name") == "SplitAndAddTask" and any(c.get("kind") == "CompoundStmt" for c in kids(n)):
                fn = n
    if fn is None:
        raise FactError("TaskScheduler::SplitAndAddTask not found")

    def mcalls(n):
        return [kids(x)[0].get("name") for x, _ in astutil.walk(n) if x.get("kind") == "CXXMemberCallExpr" and kids(x) and kids(x)[0].get("kind") == "MemberExpr"]
    ifs = [x for x, _ in astutil.walk(fn) if x.get("kind") == "IfStmt" and "WriterTryWriteFront" in mcalls(kids(x)[0])]
    if len(ifs) != 1 or len(kids(ifs[0])) != 3:
        return "WakeUnknown"
    cond = kids(ifs[0])[0]
    negated = any(x.get("kind") == "UnaryOperator" and x.get("opcode") == "!" for x, _ in astutil.walk(cond))
    succ = kids(ifs[0])[2] if negated else kids(ifs[0])[1]
    while succ.get("kind") == "CompoundStmt" and len(kids(succ)) == 1:
        succ = kids(succ)[0]
    if succ.get("kind") == "CXXMemberCallExpr" and mcalls(succ)[:1] == ["WakeThreads"]:
        return "WakeEveryPush"
    if succ.get("kind") == "IfStmt" and "WakeThreads" in mcalls(succ):
        names = [ (y.get("referencedDecl") or {}).get("name", "") for y, _ in astutil.walk(kids(succ)[0])]
        if "IsPipeEmpty" in mcalls(fn) and any("mpty" in n for n in names):
            return "WakeOnEmptyToNonEmpty"
    return "WakeUnknown"


def coq_list(xs):
    return "[" + "; ".join(xs) + "]"


def main():
    repo, inc, out = sys.argv[1], sys.argv[2], sys.argv[3]
    work = sys.argv[4] if len(sys.argv) > 4 else os.path.dirname(out)
    os.makedirs(work, exist_ok=True)
    os.makedirs(os.path.dirname(out), exist_ok=True)
    try:
        docs = dump(repo, inc, os.path.join(HERE, "inst.cpp"), "rkcommon::tasking", os.path.join(work, "c02_tasking.json"),
                    defs=["-DRKCOMMON_TASKING_INTERNAL"])
        order, task, kind, dtor_waits, flag_atomic = asynctask_facts(docs)
        pre, post, clos = async_facts(docs)
        xs, slot_kind, slot_at_exit = sched_facts(docs)
        docs2 = dump(repo, inc, os.path.join(repo, "rkcommon/tasking/detail/enkiTS/TaskScheduler.cpp"), "enki::TaskScheduler",
                     os.path.join(work, "c02_tryrun.json"))
        dec_after, seq = tryrun_facts(docs2)
        wake_fenced, wait_fenced = wake_facts(docs2)
        st_orders, ld_orders = flag_orders(docs)
        from concurrent.futures import ThreadPoolExecutor
        bdefs = {"tbb": ["-DRKCOMMON_TASKING_TBB"], "omp": ["-DRKCOMMON_TASKING_OMP", "-fopenmp"], "dbg": []}
        with ThreadPoolExecutor(max_workers=3) as ex:
            futs = {k: ex.submit(dump, repo, inc, os.path.join(HERE, "inst.cpp"), "rkcommon::tasking::detail",
                                 os.path.join(work, "c02_glue_%s.json" % k), v) for k, v in bdefs.items()}
            gdocs = {k: f.result() for k, f in futs.items()}
        gdocs["int"] = docs
        glue = {k: glue_facts(gdocs[k], k) for k in ("tbb", "omp", "int", "dbg")}
        pdocs = dump(repo, inc, os.path.join(repo, "rkcommon/tasking/detail/enkiTS/TaskScheduler.cpp"), "enki::LockLessMultiReadPipe",
                     os.path.join(work, "c02_pipe.json"))
        pipe = pipe_facts(pdocs)
        tsdocs = dump(repo, inc, os.path.join(repo, "rkcommon/tasking/detail/TaskSys.cpp"), "rkcommon::tasking::detail",
                      os.path.join(work, "c02_tasksys.json"), ["-DRKCOMMON_TASKING_INTERNAL"])
        wcond, sdsteps, dtor_ok, drains_first = teardown_facts(docs2, tsdocs)
        wpol = wake_policy(docs2)
        a_unknown = async_unknown(docs)
    except FactError as e:
        sys.stderr.write("gen_facts: %s\n" % e)
        sys.exit(2)
    b = lambda x: "true" if x else "false"
    publishes = "(flag_publishes flag_store_orders_src flag_load_orders_src)"
    txt = """(* GENERATED on every run by tools/c02facts/gen_facts.py from the clang AST of the
   repository working tree.  Do not edit. *)
From Coq Require Import List.
Import ListNotations.
From C02 Require Import Model Sched.

(* memory orders of the operations on jobFinished: stores in the task closure, loads in finished()/valid()/get() *)
Definition flag_store_orders_src : list morder := %s.
Definition flag_load_orders_src : list morder := %s.
(* AsyncTask<T>: member declaration order, task lambda, get(), destructor, does the flag publish the result *)
Definition facts_src : facts :=
  mkfacts %s %s %s %s %s.
(* complete statement lists of schedule_impl / AsyncTaskImpl::AsyncTaskImpl / AsyncTaskImpl::wait per backend *)
Definition sched_impl_src : backend -> list sstmt := fun b => match b with BTbb => %s | BOmp => %s | BInt => %s | BDbg => %s end.
Definition impl_ctor_src : backend -> list sstmt := fun b => match b with BTbb => %s | BOmp => %s | BInt => %s | BDbg => %s end.
Definition impl_wait_src : backend -> list sstmt := fun b => match b with BTbb => %s | BOmp => %s | BInt => %s | BDbg => %s end.
(* statements of async() outside the recognised ones *)
Definition async_unknown_stmts_src : nat := %s.
(* LockLessMultiReadPipe: how WriterTryReadFront (owner) and ReaderTryReadBack (thief) claim a slot; WriterTryWriteFront's full test *)
Definition pipe_front_claim_src : claim := %s.
Definition pipe_back_claim_src : claim := %s.
Definition pipe_write_guard_src : wguard := %s.
(* teardown: WaitforAll's loop condition; the steps of WaitforAllAndShutdown; ~TaskScheduler calls it *)
Definition waitforall_cond_src : lcond := %s.
Definition shutdown_steps_src : list sdstep := %s.
Definition dtor_shuts_down_src : bool := %s.
(* initTaskSystemInternal drains the previous scheduler before g_ts is replaced (recorded; see the re-init finding / fix) *)
Definition reinit_drains_old_first_src : bool := %s.
(* SplitAndAddTask: when is a worker woken after a successful write into the pipe *)
Definition wake_policy_src : wakepolicy := %s.

(* async(): events on the heap packaged_task before / after schedule(closure), and in the closure *)
Definition async_pre_src : list aev := %s.
Definition async_post_src : list aev := %s.
Definition async_body_src : list aev := %s.

(* schedule_internal: statements of LocalTask::ExecuteRange *)
Definition exec_range_src : list xstmt := %s.
(* the per-thread reclaim slot: a plain pointer stays usable after the thread's TLS destructors have run; is it reclaimed at thread exit *)
Definition reclaim_slot_kind_src : slotkind := %s.
Definition reclaim_at_thread_exit_src : bool := %s.
(* TaskScheduler::TryRunTask: ExecuteRange / AtomicAdd(m_RunningCount) sequence "%s" *)
Definition tryrun_dec_after_exec_src : bool := %s.
(* wake-up handshake: WakeThreads reads m_NumThreadsWaiting behind a full barrier / WaitForTasks increments it atomically first *)
Definition wake_fenced_src : bool := %s.
Definition wait_fenced_src : bool := %s.
""" % (coq_list(st_orders), coq_list(ld_orders), coq_list(order), coq_list(task), kind, b(dtor_waits), publishes,
       coq_list(glue["tbb"][0]), coq_list(glue["omp"][0]), coq_list(glue["int"][0]), coq_list(glue["dbg"][0]),
       coq_list(glue["tbb"][1]), coq_list(glue["omp"][1]), coq_list(glue["int"][1]), coq_list(glue["dbg"][1]),
       coq_list(glue["tbb"][2]), coq_list(glue["omp"][2]), coq_list(glue["int"][2]), coq_list(glue["dbg"][2]), a_unknown,
       pipe["WriterTryReadFront"], pipe["ReaderTryReadBack"], pipe["WriterTryWriteFront"],
       wcond, coq_list(sdsteps), b(dtor_ok), b(drains_first), wpol,
       coq_list(pre), coq_list(post), coq_list(clos), coq_list(xs), slot_kind, b(slot_at_exit), seq, b(dec_after), b(wake_fenced), b(wait_fenced))
    old = open(out).read() if os.path.exists(out) else None
    if old != txt:
        open(out, "w").write(txt)
    print("facts: order=%s task=%s get=%s dtor_waits=%s atomic=%s | async pre=%s post=%s body=%s | exec_range=%s tryrun=%s wake_fenced=%s wait_fenced=%s | flag stores=%s loads=%s | glue=%s async_unknown=%s pipe=%s teardown=%s wake_policy=%s slot=%s/%s"
          % (order, task, kind, dtor_waits, flag_atomic, pre, post, clos, xs, seq, wake_fenced, wait_fenced, st_orders, ld_orders, glue, a_unknown, pipe, (wcond, sdsteps, dtor_ok, drains_first), wpol, slot_kind, slot_at_exit))


if __name__ == "__main__":
    main()
