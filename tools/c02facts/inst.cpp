#include <string>
#include "rkcommon/tasking/AsyncTask.h"
#include "rkcommon/tasking/async.h"
template struct rkcommon::tasking::AsyncTask<std::string>;
int c02_use_async() { auto f = rkcommon::tasking::async([]() { return 1; }); return f.get(); }
void c02_use_schedule() { rkcommon::tasking::schedule([]() {}); }
