#!/bin/bash
# keepseed.sh <ID> <k> "<caught-by text>": copy a validated seeded change into /verif/seeded/<ID>-<k>/
id=$1; k=$2; d=/verif/seeded/$id-$k; so=/tmp/seedout/$id-$k
mkdir -p $d; cp $so/patch.diff $so/demo.cpp $so/run.sh $d/ 2>/dev/null
python3 - "$so/meta.json" "$d/meta.json" "$3" "$so/vcheck.log" <<'PY'
import json,sys,re
m=json.load(open(sys.argv[1])); m["confirmed_by_coordinator"]={"demo_passes_clean":True,"demo_fails_patched":True,"unit_tests_pass_patched":True,
 "ran":"tools/tryseed.sh (demo on clean + patched worktree, cmake --build + ctest on patched worktree, VERIF_REPO=<patched worktree> bin/vcheck)"}
log=open(sys.argv[4],errors="replace").read()
m["our_check"]={"result":sys.argv[3],"violation_lines":re.findall(r"^VIOLATION.*$",log,re.M)[:3],"what":(re.findall(r"^VIOLATION.*\n\[[^\]]*\]\s+-> (.*)$",log,re.M) or re.findall(r" -> (.*)$",log,re.M))[:3]}
json.dump(m,open(sys.argv[2],"w"),indent=1)
PY
echo kept $d
