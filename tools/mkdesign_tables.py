#!/usr/bin/env python3
"""Print markdown tables for DESIGN.md section 9 from known_findings.json and seeded/*/meta.json."""
import json, glob, os
H = os.path.dirname(os.path.dirname(os.path.abspath(__file__)))
kf = json.load(open(os.path.join(H, "known_findings.json")))["findings"]
print("| property | status | /repo commit or signature | what failed |\n|---|---|---|---|")
for f in sorted(kf, key=lambda f: (f["property"], f["status"])):
    print("| %s | %s | %s | %s |" % (f["property"], f["status"], f.get("commit") or "`%s`" % f.get("signature"), f["what"].replace("|", "\\|")[:400]))
print()
print("| seeded change | breaks (clause) | needs to manifest | result with our check |\n|---|---|---|---|")
for p in sorted(glob.glob(os.path.join(H, "seeded", "*", "meta.json"))):
    m = json.load(open(p)); oc = m.get("our_check", {})
    res = oc.get("history") or oc.get("result", "")
    w = (oc.get("what") or [""])[0][:160]
    print("| %s | %s | %s | %s%s |" % (os.path.basename(os.path.dirname(p)), str(m.get("clause_broken", ""))[:160].replace("|", "\\|").replace("\n", " "),
          str(m.get("needs_to_manifest", ""))[:200].replace("|", "\\|").replace("\n", " "), res.replace("|", "\\|"), (" — `" + w.replace("|", "\\|") + "`") if w else ""))
